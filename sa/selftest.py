"""Self-test of the checkers, both ways.

For every seeded fault (a small source edit that still compiles) the property's check, run
on a scratch copy of /repo's *current* sqlglot package with the edit applied, must exit 1
and name the expected rule; for every benign variant it must exit 0. Scratch copies live
under $TMPDIR (outside /repo and /verif) and are removed immediately.

A fault whose anchor text no longer exists in the tree under analysis is counted as
`not_applicable` (the tree changed), never as a miss.

Usage: ./vcheck selftest [Cxx ...] [--jobs N] [--list]
"""

from __future__ import annotations

import json
import os
import shutil
import subprocess
import sys
import tempfile
import time
from concurrent.futures import ThreadPoolExecutor
from dataclasses import dataclass, field
from pathlib import Path

from .core import REPO, VERIF


@dataclass
class Mut:
    pid: str
    name: str
    file: str  # relative to repo root
    old: str
    new: str
    expect: str  # rule id expected in a FINDING line, or "silent"
    count: int = 1  # how many occurrences of `old` to replace (0 = all)
    extra: list[tuple[str, str, str]] = field(default_factory=list)  # further (file, old, new) edits


def _load_catalog() -> list[Mut]:
    from . import selftest_catalog

    return selftest_catalog.CATALOG


def _run_one(mu: Mut) -> dict:
    t0 = time.time()
    tmp = Path(tempfile.mkdtemp(prefix="verif_st_"))
    try:
        root = tmp / "repo"
        shutil.copytree(REPO / "sqlglot", root / "sqlglot", ignore=shutil.ignore_patterns("__pycache__", "*.pyc", "*.so"))
        edits = [(mu.file, mu.old, mu.new)] + list(mu.extra)
        for file, old, new in edits:
            p = root / file
            if not p.exists():
                return {"mut": mu.name, "pid": mu.pid, "status": "not_applicable", "why": f"{file} missing"}
            src = p.read_text()
            if old not in src:
                return {"mut": mu.name, "pid": mu.pid, "status": "not_applicable", "why": f"anchor text not found in {file}"}
            src = src.replace(old, new) if mu.count == 0 else src.replace(old, new, mu.count)
            try:
                compile(src, str(p), "exec")
            except SyntaxError as e:
                return {"mut": mu.name, "pid": mu.pid, "status": "broken_mutation", "why": f"does not compile: {e}"}
            p.write_text(src)
        env = dict(os.environ)
        env["VERIF_REPO_ROOT"] = str(root)
        env["VERIF_EVIDENCE_DIR"] = str(tmp / "ev")
        env["PYTHONDONTWRITEBYTECODE"] = "1"
        env["VERIF_CACHE_DIR"] = str(tmp / "cache")
        env.setdefault("VERIF_S2_TIMEOUT", "45")
        pr = subprocess.run([str(VERIF / "vcheck"), mu.pid, "--tier", "quick"], env=env, capture_output=True, text=True, timeout=600, cwd=str(VERIF))
        out = pr.stdout + pr.stderr
        findings = [l for l in out.splitlines() if l.strip().startswith("FINDING")]
        if mu.expect == "silent":
            ok = pr.returncode == 0
            status = "ok" if ok else "false_alarm"
        else:
            ok = pr.returncode == 1 and any(f" {mu.expect} " in l or f" {mu.expect}" in l.split(" in ")[0] for l in findings)
            status = "ok" if ok else ("analysis_error" if pr.returncode == 2 else "missed")
        return {
            "mut": mu.name, "pid": mu.pid, "expect": mu.expect, "status": status, "rc": pr.returncode,
            "findings": [l.strip()[:220] for l in findings][:4],
            "tail": out.strip().splitlines()[-3:] if status not in ("ok",) else [],
            "wall_s": round(time.time() - t0, 2),
        }
    finally:
        shutil.rmtree(tmp, ignore_errors=True)


def run(pids: list[str] | None = None, jobs: int = 16) -> list[dict]:
    cat = [m for m in _load_catalog() if not pids or m.pid in pids]
    with ThreadPoolExecutor(max_workers=jobs) as ex:
        return list(ex.map(_run_one, cat))


def main(pids: list[str], argv: list[str]) -> int:
    jobs = int(argv[argv.index("--jobs") + 1]) if "--jobs" in argv else 16
    pids = [p.upper() for p in pids if p[:1] in "cC" and p[1:].isdigit()]
    if "--list" in argv:
        for m in _load_catalog():
            if not pids or m.pid in pids:
                print(m.pid, m.expect, m.name)
        return 0
    t0 = time.time()
    res = run(pids or None, jobs)
    bad = 0
    counts: dict[str, int] = {}
    for r in res:
        counts[r["status"]] = counts.get(r["status"], 0) + 1
        mark = "ok " if r["status"] in ("ok", "not_applicable") else "BAD"
        if r["status"] not in ("ok", "not_applicable"):
            bad += 1
        print(f"{mark} {r['pid']} {r.get('expect', '-'):8s} {r['status']:15s} {r['mut']}  ({r.get('wall_s', 0)}s)")
        if r["status"] not in ("ok",):
            for l in r.get("findings", []) + r.get("tail", []) + ([r["why"]] if "why" in r else []):
                print("      " + l)
    print(f"selftest: {len(res)} variants, {counts}, wall {round(time.time() - t0, 1)}s")
    out = VERIF / "evidence" / "selftest.json"
    out.parent.mkdir(exist_ok=True)
    out.write_text(json.dumps({"counts": counts, "results": res, "wall_s": round(time.time() - t0, 1)}, indent=1))
    return 1 if bad else 0
