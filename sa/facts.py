"""E1: runs the S2 introspection child against the repo under analysis and returns its facts.

Note: importing sqlglot executes import-time code only, but that includes the dialect
generators' module-level SQL templates (`exp.maybe_parse("...")`), i.e. the parser runs on a
handful of fixed strings of the repository itself. No input of ours is ever parsed. A tree
whose parser hangs or crashes on its own templates makes S2 unavailable: that is reported as
an analysis error (exit 2) unless a rule that does not need S2 already found a violation.
"""

from __future__ import annotations

import json
import os
import subprocess
import tempfile
from pathlib import Path

from .core import AnalysisError, PYTHON, Repo

_CHILD = Path(__file__).resolve().parent / "introspect_child.py"
_cache: dict[str, dict] = {}
_failed: dict[str, str] = {}


def facts(repo: Repo) -> dict:
    key = repo.digest
    if key in _cache:
        return _cache[key]
    if key in _failed:
        raise AnalysisError(_failed[key])
    fd, out = tempfile.mkstemp(prefix="verif_facts_", suffix=".json")
    os.close(fd)
    try:
        env = dict(os.environ)
        env["PYTHONPATH"] = str(repo.root)
        env["PYTHONDONTWRITEBYTECODE"] = "1"
        env.pop("PYTHONHASHSEED", None)
        timeout = int(os.environ.get("VERIF_S2_TIMEOUT", "120"))
        try:
            p = subprocess.run([PYTHON, "-B", str(_CHILD), out], env=env, cwd="/", capture_output=True, text=True, timeout=timeout)
        except subprocess.TimeoutExpired:
            _failed[key] = f"import introspection (S2) did not finish within {timeout}s: importing the package under analysis hangs"
            raise AnalysisError(_failed[key]) from None
        if p.returncode != 0:
            tail = (p.stderr or p.stdout).strip().splitlines()[-6:]
            _failed[key] = "import introspection (S2) failed: " + " | ".join(tail)
            raise AnalysisError(_failed[key])
        data = json.loads(Path(out).read_text())
    finally:
        try:
            os.unlink(out)
        except OSError:
            pass
    if data.get("failed_modules"):
        _failed[key] = f"S2: modules failed to import: {data['failed_modules']}"
        raise AnalysisError(_failed[key])
    src = str(Path(data.get("sqlglot_file", "")).resolve())
    if not src.startswith(str(repo.root)):
        _failed[key] = f"S2 imported sqlglot from {src}, not from the tree under analysis {repo.root}"
        raise AnalysisError(_failed[key])
    _cache[key] = data
    return data
