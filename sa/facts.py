"""E1: runs the S2 introspection child against the repo under analysis and returns its facts."""

from __future__ import annotations

import json
import os
import subprocess
import tempfile
from pathlib import Path

from .core import AnalysisError, PYTHON, Repo

_CHILD = Path(__file__).resolve().parent / "introspect_child.py"
_cache: dict[str, dict] = {}


def facts(repo: Repo) -> dict:
    key = repo.digest
    if key in _cache:
        return _cache[key]
    fd, out = tempfile.mkstemp(prefix="verif_facts_", suffix=".json")
    os.close(fd)
    try:
        env = dict(os.environ)
        env["PYTHONPATH"] = str(repo.root)
        env["PYTHONDONTWRITEBYTECODE"] = "1"
        env.pop("PYTHONHASHSEED", None)
        p = subprocess.run(
            [PYTHON, "-S" if False else "-B", str(_CHILD), out],
            env=env,
            cwd="/",
            capture_output=True,
            text=True,
            timeout=300,
        )
        if p.returncode != 0:
            tail = (p.stderr or p.stdout).strip().splitlines()[-6:]
            raise AnalysisError("import introspection (S2) failed: " + " | ".join(tail))
        data = json.loads(Path(out).read_text())
    finally:
        try:
            os.unlink(out)
        except OSError:
            pass
    if data.get("failed_modules"):
        raise AnalysisError(f"S2: modules failed to import: {data['failed_modules']}")
    # sanity: the child must have imported the tree under analysis, not another copy
    _cache[key] = data
    return data
