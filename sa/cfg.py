"""E2: statement-level control-flow graph for Python function bodies + a small generic
dataflow solver.  Hand-built for the statement kinds sqlglot uses.

Node kinds
  entry, exit (normal return / fall off), raise (exceptional exit)
  stmt   simple statement (Expr, Assign, AugAssign, AnnAssign, Return, Raise, Pass, Delete,
         Assert, Import..., Global, Nonlocal, nested def/class as opaque)
  cond   an atomic branch condition (BoolOps / `not` are decomposed, so edges labelled
         True/False carry atomic conditions)
  for    loop header of a `for` (edge True = next element bound, False = exhausted)
  with   `with` item evaluation
  join   structural no-op (loop exits, try joins)

Edges: (target, label) with label in {None, True, False, "exc"}.
Exceptional edges are modelled only inside `try` bodies (to their handlers / finally);
elsewhere an implicit exception leaves the function and is of no interest to the rules.
`finally` bodies are duplicated per continuation kind (normal, exception, return, break,
continue) so that must-analyses do not mix paths.
"""

from __future__ import annotations

import ast
import typing as t
from dataclasses import dataclass, field


@dataclass(eq=False)
class Node:
    id: int
    kind: str
    ast: ast.AST | None = None
    succ: list[tuple["Node", t.Any]] = field(default_factory=list)
    pred: list[tuple["Node", t.Any]] = field(default_factory=list)
    loop: "Node | None" = None  # innermost loop head this node belongs to
    note: str = ""

    @property
    def lineno(self) -> int:
        return getattr(self.ast, "lineno", 0)

    def __repr__(self) -> str:
        try:
            s = ast.unparse(self.ast)[:50] if self.ast is not None else ""
        except Exception:  # noqa: BLE001
            s = ""
        return f"<{self.id}:{self.kind} L{self.lineno} {s}>"


class CFG:
    def __init__(self, func: ast.FunctionDef | ast.AsyncFunctionDef | ast.Lambda) -> None:
        self.func = func
        self.nodes: list[Node] = []
        self.entry = self._new("entry")
        self.exit = self._new("exit")
        self.raise_exit = self._new("raise")
        # frames for break/continue/return/exception routing
        self._loop_stack: list[tuple[Node, Node]] = []  # (continue target, break target)
        self._try_stack: list[dict] = []
        self.loop_heads: list[Node] = []
        self.back_edges: list[tuple[Node, Node]] = []
        if isinstance(func, ast.Lambda):
            n = self._new("stmt", ast.Return(value=func.body, lineno=func.lineno, col_offset=func.col_offset))
            self._edge(self.entry, n)
            self._edge(n, self.exit)
        else:
            outs = self._block(func.body, [(self.entry, None)])
            for n, lab in outs:
                self._edge(n, self.exit, lab)

    # ---- construction ---------------------------------------------------------------
    def _new(self, kind: str, node: ast.AST | None = None, note: str = "") -> Node:
        n = Node(len(self.nodes), kind, node, note=note)
        n.loop = self._loop_stack[-1][0] if getattr(self, "_loop_stack", None) else None
        self.nodes.append(n)
        return n

    def _edge(self, a: Node, b: Node, label: t.Any = None) -> None:
        a.succ.append((b, label))
        b.pred.append((a, label))

    def _connect(self, ins: list[tuple[Node, t.Any]], b: Node) -> None:
        for a, lab in ins:
            self._edge(a, b, lab)

    def _cond(
        self, test: ast.expr, ins: list[tuple[Node, t.Any]]
    ) -> tuple[list[tuple[Node, t.Any]], list[tuple[Node, t.Any]]]:
        """Build nodes for a condition; returns (true_outs, false_outs)."""
        if isinstance(test, ast.BoolOp):
            if isinstance(test.op, ast.And):
                false_outs: list[tuple[Node, t.Any]] = []
                cur = ins
                for v in test.values:
                    tr, fl = self._cond(v, cur)
                    false_outs += fl
                    cur = tr
                return cur, false_outs
            else:
                true_outs: list[tuple[Node, t.Any]] = []
                cur = ins
                for v in test.values:
                    tr, fl = self._cond(v, cur)
                    true_outs += tr
                    cur = fl
                return true_outs, cur
        if isinstance(test, ast.UnaryOp) and isinstance(test.op, ast.Not):
            tr, fl = self._cond(test.operand, ins)
            return fl, tr
        n = self._new("cond", test)
        self._connect(ins, n)
        self._exc_edges(n)
        if isinstance(test, ast.Constant):
            if test.value:
                return [(n, True)], []
            return [], [(n, False)]
        return [(n, True)], [(n, False)]

    def _exc_edges(self, n: Node) -> None:
        """Inside a try body every node may raise into the innermost handlers."""
        if self._try_stack:
            fr = self._try_stack[-1]
            if fr.get("active"):
                fr["raisers"].append(n)

    def _block(self, body: list[ast.stmt], ins: list[tuple[Node, t.Any]]) -> list[tuple[Node, t.Any]]:
        cur = ins
        for st in body:
            cur = self._stmt(st, cur)
        return cur

    def _route_jump(self, n: Node, kind: str) -> None:
        """Route return/break/continue from node n through enclosing finally blocks."""
        # find innermost try frames with finally that the jump crosses
        frames = []
        for fr in reversed(self._try_stack):
            if kind in ("break", "continue") and fr["loop_depth"] < len(self._loop_stack):
                break
            if fr.get("finalbody") and not fr.get("in_final"):
                frames.append(fr)
        cur: list[tuple[Node, t.Any]] = [(n, None)]
        for fr in frames:
            cur = self._inline_finally(fr, cur, kind)
        if kind == "return":
            for a, lab in cur:
                self._edge(a, self.exit, lab)
        elif kind == "break":
            tgt = self._loop_stack[-1][1]
            for a, lab in cur:
                self._edge(a, tgt, lab)
        elif kind == "continue":
            tgt = self._loop_stack[-1][0]
            for a, lab in cur:
                self._edge(a, tgt, lab)
                self.back_edges.append((a, tgt))

    def _inline_finally(self, fr: dict, ins: list[tuple[Node, t.Any]], kind: str) -> list[tuple[Node, t.Any]]:
        fr["in_final"] = True
        saved = self._try_stack
        # finally body executes outside its own try frame
        self._try_stack = saved[: saved.index(fr)] if fr in saved else list(saved)
        j = self._new("join", fr["node"], note=f"finally[{kind}]")
        self._connect(ins, j)
        outs = self._block(fr["finalbody"], [(j, None)])
        self._try_stack = saved
        fr["in_final"] = False
        return outs

    def _stmt(self, st: ast.stmt, ins: list[tuple[Node, t.Any]]) -> list[tuple[Node, t.Any]]:
        if not ins:
            # unreachable code: still build nodes so that sites are indexed, from a dead join
            dead = self._new("join", st, note="dead")
            ins = [(dead, None)]
        if isinstance(st, ast.If):
            tr, fl = self._cond(st.test, ins)
            o1 = self._block(st.body, tr) if st.body else tr
            o2 = self._block(st.orelse, fl) if st.orelse else fl
            return o1 + o2
        if isinstance(st, ast.While):
            head = self._new("join", st, note="while-head")
            self.loop_heads.append(head)
            self._connect(ins, head)
            after = self._new("join", st, note="while-exit")
            self._loop_stack.append((head, after))
            head.loop = head
            tr, fl = self._cond(st.test, [(head, None)])
            outs = self._block(st.body, tr)
            for a, lab in outs:
                self._edge(a, head, lab)
                self.back_edges.append((a, head))
            self._loop_stack.pop()
            if st.orelse:
                fl = self._block(st.orelse, fl)
            self._connect(fl, after)
            return [(after, None)]
        if isinstance(st, (ast.For, ast.AsyncFor)):
            it = self._new("stmt", ast.Expr(value=st.iter, lineno=st.lineno, col_offset=0), note="for-iter")
            self._connect(ins, it)
            self._exc_edges(it)
            head = self._new("for", st)
            self.loop_heads.append(head)
            self._edge(it, head)
            after = self._new("join", st, note="for-exit")
            self._loop_stack.append((head, after))
            head.loop = head
            outs = self._block(st.body, [(head, True)])
            for a, lab in outs:
                self._edge(a, head, lab)
                self.back_edges.append((a, head))
            self._loop_stack.pop()
            fl: list[tuple[Node, t.Any]] = [(head, False)]
            if st.orelse:
                fl = self._block(st.orelse, fl)
            self._connect(fl, after)
            return [(after, None)]
        if isinstance(st, (ast.With, ast.AsyncWith)):
            n = self._new("with", st)
            self._connect(ins, n)
            self._exc_edges(n)
            return self._block(st.body, [(n, None)])
        if isinstance(st, ast.Try) or (hasattr(ast, "TryStar") and isinstance(st, ast.TryStar)):
            fr = {
                "node": st,
                "raisers": [],
                "active": True,
                "finalbody": st.finalbody,
                "loop_depth": len(self._loop_stack),
                "in_final": False,
            }
            start = self._new("join", st, note="try")
            self._connect(ins, start)
            self._try_stack.append(fr)
            body_outs = self._block(st.body, [(start, None)])
            fr["active"] = False
            raisers = [start] + fr["raisers"]
            # else block runs after body without exception; exceptions in it are not caught by handlers
            if st.orelse:
                body_outs = self._block(st.orelse, body_outs)
            outs: list[tuple[Node, t.Any]] = list(body_outs)
            handler_raisers: list[Node] = []
            catch_all = False
            for h in st.handlers:
                hn = self._new("join", h, note="except")
                for r in raisers:
                    self._edge(r, hn, "exc")
                # nodes in handler may raise -> to finally / outer
                fr2_active_nodes_before = len(self.nodes)
                houts = self._block(h.body, [(hn, None)])
                handler_raisers += self.nodes[fr2_active_nodes_before:]
                outs += houts
                if h.type is None or (isinstance(h.type, ast.Name) and h.type.id in ("Exception", "BaseException")):
                    catch_all = True
            self._try_stack.pop()
            # uncaught exceptions (from body if not catch-all, and from handlers): through finally, then outward
            unc: list[Node] = []
            if not catch_all:
                unc += raisers
            unc += [x for x in handler_raisers if x.kind in ("stmt", "cond", "with") and self._may_raise(x)]
            if st.finalbody:
                if unc:
                    exc_outs = self._inline_finally(fr, [(u, "exc") for u in unc], "exception")
                    for a, lab in exc_outs:
                        self._propagate_exc(a, lab)
                outs = self._inline_finally(fr, outs, "normal")
            else:
                for u in unc:
                    self._propagate_exc(u, "exc")
            return outs
        if isinstance(st, ast.Return):
            n = self._new("stmt", st)
            self._connect(ins, n)
            self._exc_edges(n)
            self._route_jump(n, "return")
            return []
        if isinstance(st, ast.Raise):
            n = self._new("stmt", st)
            self._connect(ins, n)
            if self._try_stack and self._try_stack[-1].get("active"):
                self._try_stack[-1]["raisers"].append(n)
            else:
                self._propagate_exc(n, "exc")
            return []
        if isinstance(st, ast.Break):
            n = self._new("stmt", st)
            self._connect(ins, n)
            self._route_jump(n, "break")
            return []
        if isinstance(st, ast.Continue):
            n = self._new("stmt", st)
            self._connect(ins, n)
            self._route_jump(n, "continue")
            return []
        if hasattr(ast, "Match") and isinstance(st, ast.Match):
            subj = self._new("stmt", ast.Expr(value=st.subject, lineno=st.lineno, col_offset=0), note="match")
            self._connect(ins, subj)
            outs: list[tuple[Node, t.Any]] = []
            for case in st.cases:
                cn = self._new("join", case, note="case")
                self._edge(subj, cn)
                outs += self._block(case.body, [(cn, None)])
            outs.append((subj, None))
            return outs
        # simple statement
        n = self._new("stmt", st)
        self._connect(ins, n)
        self._exc_edges(n)
        return [(n, None)]

    @staticmethod
    def _may_raise(n: Node) -> bool:
        if n.ast is None:
            return False
        if isinstance(n.ast, ast.Raise):
            return True
        return any(isinstance(x, ast.Call) for x in ast.walk(n.ast))

    def _propagate_exc(self, a: Node, lab: t.Any) -> None:
        """Exception leaving a try statement (or raised outside any active try body)."""
        for fr in reversed(self._try_stack):
            if fr.get("active"):
                fr["raisers"].append(a)
                return
        self._edge(a, self.raise_exit, lab if lab is not None else "exc")

    # ---- queries --------------------------------------------------------------------
    def reachable(self, start: Node | None = None) -> set[Node]:
        start = start or self.entry
        seen = {start}
        st = [start]
        while st:
            n = st.pop()
            for s, _ in n.succ:
                if s not in seen:
                    seen.add(s)
                    st.append(s)
        return seen

    def nodes_for(self, target: ast.AST) -> list[Node]:
        """CFG nodes whose ast contains `target` (by identity)."""
        out = []
        for n in self.nodes:
            if n.ast is None or n.kind == "join":
                continue
            if n.kind == "for":
                # only the target/iter belong to the header
                continue
            if n.kind == "with":
                items = [i.context_expr for i in n.ast.items]  # type: ignore[attr-defined]
                if any(target is x for it in items for x in ast.walk(it)):
                    out.append(n)
                continue
            if isinstance(n.ast, (ast.FunctionDef, ast.AsyncFunctionDef, ast.ClassDef)):
                continue
            for x in ast.walk(n.ast):
                if x is target:
                    out.append(n)
                    break
        return out


def forward(
    cfg: CFG,
    init: t.Any,
    transfer: t.Callable[[Node, t.Any, t.Any], t.Any],
    meet: t.Callable[[t.Any, t.Any], t.Any],
    top: t.Any = None,
) -> dict[Node, t.Any]:
    """Generic forward dataflow.  transfer(node, label, in_state) -> state on that out-edge.
    Returns IN state per node (state before the node).  `top` (None) = unreached."""
    IN: dict[Node, t.Any] = {n: top for n in cfg.nodes}
    IN[cfg.entry] = init
    work = [cfg.entry]
    iters = 0
    while work:
        n = work.pop()
        iters += 1
        if iters > 200000:
            raise RuntimeError("dataflow did not converge")
        s = IN[n]
        if s is top:
            continue
        for succ, lab in n.succ:
            out = transfer(n, lab, s)
            old = IN[succ]
            new = out if old is top else meet(old, out)
            if new != old:
                IN[succ] = new
                work.append(succ)
    return IN


def must_pass(
    cfg: CFG,
    is_gen: t.Callable[[Node, t.Any], bool],
    is_kill: t.Callable[[Node, t.Any], bool] | None = None,
    start: Node | None = None,
) -> dict[Node, bool]:
    """IN[n] = True iff on every path from entry to n some edge (node,label) satisfied
    is_gen after the last edge satisfying is_kill."""

    def tr(n: Node, lab: t.Any, s: bool) -> bool:
        if is_kill is not None and is_kill(n, lab):
            s = False
        if is_gen(n, lab):
            return True
        return s

    return forward(cfg, False, tr, lambda a, b: a and b)


def paths_between(
    cfg: CFG, src: Node, dst: Node, avoid: t.Callable[[Node, t.Any], bool], limit: int = 20000
) -> list[Node] | None:
    """A path src -> ... -> dst none of whose edges satisfy `avoid` (witness), or None."""
    seen = {src}
    stack: list[tuple[Node, list[Node]]] = [(src, [src])]
    steps = 0
    while stack:
        n, path = stack.pop()
        for s, lab in n.succ:
            steps += 1
            if steps > limit:
                return path
            if avoid(n, lab):
                continue
            if s is dst:
                return path + [s]
            if s not in seen:
                seen.add(s)
                stack.append((s, path + [s]))
    return None
